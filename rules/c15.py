"""C15 - sanitised results equal raw results and do not depend on spare variable sets.

Decided here (equality of sets and independence of the number of spare variable sets are value-level, not decided):
  C15-R1  sanitise o dirty: each of the sanitising entry points returns only values that passed through
          sanitize_colored_vertices(graph, .) applied element-wise (one-to-one, in order) to the results of the
          corresponding dirty pipeline run with the same arguments on the same graph - no raw result of eval_node reaches
          the caller unsanitised, and nothing else is done to the results;
  C15-R2  each sanitize_* function transfers the set's BDD from graph.symbolic_context() into
          graph.symbolic_context().as_canonical_context() and wraps the result with that same canonical context; nothing
          is quantified, renamed or filtered;
  C15-R3  the index of a variable's symbolic copy is computed from the variable name only (name.len() - 1), never from
          the number of extra variables of the graph; get_extended_symbolic_graph gives every network variable the same
          number of copies."""
import evalnode as E
import lowlevel
import pipelines
import semantics as sem
import terms
from terms import subterms, pt

LEVEL = "other"
SAN = "postprocessing::sanitizing::"


def strip_sanitize(t, graph, found):
    """Replace `X.iter().map(|x| sanitize_colored_vertices(graph, x))` by a marker, collecting (graph, X);
    a sanitize call on anything else is collected with its argument."""
    if not isinstance(t, tuple) or not t:
        return t
    if t[0] == "hof" and t[1] == "map" and t[3][0] == "call" and isinstance(t[3][1], str) and t[3][1].endswith("sanitize_colored_vertices") \
            and len(t[3][2]) == 2 and t[3][2][1] == ("elem", t[2]):
        recv = t[2]
        while recv[0] == "call" and recv[1].rsplit("::", 1)[-1] in ("iter", "into_iter") and len(recv[2]) == 1:
            recv = recv[2][0]
        found.append((t[3][2][0], recv, "map"))
        return ("lit", "#sanitised-map")
    if t[0] == "call" and isinstance(t[1], str) and t[1].endswith("sanitize_colored_vertices") and len(t[2]) == 2:
        found.append((t[2][0], t[2][1], "single"))
        return ("lit", "#sanitised")
    return tuple(strip_sanitize(x, graph, found) if isinstance(x, tuple) else x for x in t)


def run(prog, rep):
    rep.explanation = __doc__
    rep.assumptions = ["L7 transfer_from maps a BDD by variable names and fails iff a variable has no namesake",
                       "C03 (closed results do not depend on auxiliary variables)"]
    rep.rule("C15-R1", "sanitising entry point == map(sanitize) over the dirty pipeline's results")
    rep.rule("C15-R2", "sanitize_* = transfer into the canonical context of the same graph")
    rep.rule("C15-R3", "symbolic copy index depends on the name only; uniform number of copies")
    deng = pipelines.driver_engine(prog)
    eps = {f.name: f for f in pipelines.entry_points(prog)}
    n = 0
    for name, f in sorted(eps.items()):
        if "dirty" in name or "unsafe" in name:
            continue
        dirty = eps.get(name + "_dirty")
        if dirty is None:
            rep.unresolved("C15-R1", f"{name}/sibling", f"{f.file}:{f.line}", "no dirty sibling found")
            continue
        n += 1
        rep.functions.add(f.qual)
        ts = deng.summary(f).ret
        td = deng.summary(dirty).ret
        # same parameter names in both siblings?
        mapping = {a: ("param", b) for a, b in zip(dirty.param_names(), f.param_names())}
        td = terms.subst(td, mapping)
        graph = [("param", p) for p, t in zip(f.param_names(), f.param_tys) if "SymbolicAsyncGraph" in t]
        found = []
        rest = strip_sanitize(ts, graph, found)
        raw_left = any(x[0] in ("call", "rec") and isinstance(x[1], str) and x[1].endswith("::eval_node") for x in subterms(rest))
        ok_graph = bool(found) and bool(graph) and all(g == graph[0] for g, _, _ in found)
        raw = terms.mk_proj(td, "std::result::Result::Ok", 0)
        cands = [raw] + [y[1] for y in [raw] + list(subterms(raw)) if y[0] == "index" and y[2] == ("lit", 0)]
        ok_elem = bool(found) and all(x in cands for _, x, _ in found)
        # the mapped collection is not filtered / reordered
        adapters = [x[1].rsplit("::", 1)[-1] for x in subterms(rest) if x[0] == "call" and isinstance(x[1], str)]
        hofs = [x[1] for x in subterms(rest) if x[0] == "hof"]
        bad = [a for a in adapters + hofs if a in ("filter", "filter_map", "rev", "skip", "take", "step_by", "zip", "chain", "dedup", "sort", "retain")]
        good = not raw_left and ok_graph and ok_elem and not bad
        why = (f"raw eval_node results reach the caller unsanitised={raw_left}; sanitised on the same graph={ok_graph}; "
               f"sanitised values are the elements of the dirty pipeline's result={ok_elem}; extra adapters={bad}")
        rep.check(good, "C15-R1", f"{name}", f"{f.file}:{f.line}", "result = map(sanitize_colored_vertices(graph, .)) over the dirty results", why)
    rep.floor("C15-R1", 10)
    eng = terms.Engine(prog, inline=False)
    for fname, ctor in (("sanitize_colored_vertices", "GraphColoredVertices"), ("sanitize_colors", "GraphColors"), ("sanitize_vertices", "GraphVertices")):
        f = prog.lib_fn(SAN + fname)
        if f is None:
            rep.unresolved("C15-R2", fname, "", "function not found")
            continue
        rep.functions.add(f.qual)
        s = terms.Engine(prog, inline=True, hooks=E.Hooks([SAN])).summary(f)      # helpers of the module are inlined
        pn = f.param_names()
        g, x = ("param", pn[0]), ("param", pn[1])
        t = s.ret
        good = False
        why = f"returns {sem.short(t, 200)}"
        if t[0] == "call" and t[1].endswith("::new") and ctor in t[1] and len(t[2]) == 2:
            bdd, cctx = t[2]
            canon_ok = cctx[0] == "call" and cctx[1].endswith("as_canonical_context") and cctx[2][0][0] == "call" and cctx[2][0][1].endswith("symbolic_context") and cctx[2][0][2] == (g,)
            tr = bdd
            if tr[0] == "call" and tr[1].rsplit("::", 1)[-1] in ("unwrap", "expect"):
                tr = tr[2][0]
            tr_ok = (tr[0] == "call" and tr[1].endswith("transfer_from") and len(tr[2]) == 3 and tr[2][0] == cctx
                     and tr[2][1][0] == "call" and tr[2][1][1].endswith("as_bdd") and tr[2][1][2] == (x,)
                     and tr[2][2][0] == "call" and tr[2][2][1].endswith("symbolic_context") and tr[2][2][2] == (g,))
            good = canon_ok and tr_ok
        rep.check(good, "C15-R2", fname, f"{f.file}:{f.line}", f"{ctor}::new(canonical.transfer_from(x.as_bdd(), graph.symbolic_context()), canonical)", why)
    rep.floor("C15-R2", 3)
    lowlevel.check_primitives(prog, rep, "C15-R3")
    f = prog.lib_fn("mc_utils::get_extended_symbolic_graph")
    if f is not None:
        rep.functions.add(f.qual)
        s = eng.summary(f)
        pn = f.param_names()
        ins = [x for x in s.sites if x.kind == "mcall" and x.name == "insert"]
        fors = [x for x in s.sites if x.kind == "for"]
        good = len(ins) == 1 and len(fors) == 1 and ins[0].args[2] == ("param", pn[1]) and ins[0].args[1] == ("elem", fors[0].args[0]) \
            and fors[0].args[0][0] == "call" and fors[0].args[0][1].endswith("::variables") and fors[0].args[0][2] == (("param", pn[0]),)
        ctxs = [x for x in s.sites if x.kind == "call" and x.is_call_to("with_extra_state_variables")]
        good = good and len(ctxs) == 1 and ctxs[0].args[0] == ("param", pn[0])
        rep.check(good, "C15-R3", "get_extended_symbolic_graph/uniform", f"{f.file}:{f.line}", "every network variable gets num_hctl_vars copies",
                  "the number of symbolic copies is not the same `num_hctl_vars` for every network variable")
    rep.floor("C15-R3", 6)
