"""Small queries on *normalised* terms (see norm.py)."""
from norm import SOME, OK, SOME_DESC, OK_DESC, GET, last
from terms import subterms


def is_some_test(t):
    """t == matches(x, SOME)  ->  x"""
    if isinstance(t, tuple) and len(t) == 3 and t[0] == "matches" and t[2] == SOME_DESC:
        return t[1]
    return None


def is_ok_test(t):
    if isinstance(t, tuple) and len(t) == 3 and t[0] == "matches" and t[2] == OK_DESC:
        return t[1]
    return None


def as_get(t):
    """t == #get(m, k)  ->  (m, k)"""
    if isinstance(t, tuple) and len(t) == 3 and t[0] == "call" and t[1] == GET and len(t[2]) == 2:
        return t[2]
    return None


def as_has(t):
    """t == matches(#get(m, k), SOME)  ->  (m, k)      (contains_key and all its idiom variants)"""
    x = is_some_test(t)
    return as_get(x) if x is not None else None


def as_at(t):
    """t == proj(#get(m, k), Some, 0)  ->  (m, k)      (get().unwrap(), m[k], the binding of `if let Some(v) = m.get(k)`)"""
    if isinstance(t, tuple) and len(t) == 4 and t[0] == "proj" and last(t[2]) == "Some" and t[3] == 0:
        return as_get(t[1])
    return None


def strip_mut(t):
    while isinstance(t, tuple) and t and t[0] == "mut":
        t = t[1]
    return t


def root_place(t):
    """Root of a value reached through look-ups / payload projections / in-place updates:
    proj(#get(mut(field(p, f) <- ..), k), Some, 0)  ->  field(p, f)"""
    seen = 0
    while isinstance(t, tuple) and t and seen < 50:
        seen += 1
        if t[0] == "mut":
            t = t[1]
        elif t[0] == "proj":
            t = t[1]
        elif t[0] == "tproj":
            t = t[1]
        elif t[0] == "call" and t[1] == GET:
            t = t[2][0]
        elif t[0] == "ite":
            a, b = root_place(t[2]), root_place(t[3])
            return a if a == b else t
        else:
            break
    return t


def field_of_param(t, param, field):
    r = root_place(t)
    return r[0] == "field" and r[2] == field and strip_mut(r[1]) == ("param", param)


def conds(pc):
    """(term, polarity) of the `if` entries of a normalised path condition, conjunctions on their true side split up."""
    out = []
    for c in pc:
        if c[0] != "if":
            continue
        stack = [(c[1], c[2])]
        while stack:
            t, pol = stack.pop()
            if t[0] == "not":
                stack.append((t[1], not pol))
            elif t[0] == "bin" and t[1] == "&&" and pol:
                stack.append((t[2], True))
                stack.append((t[3], True))
            elif t[0] == "bin" and t[1] == "||" and not pol:
                stack.append((t[2], False))
                stack.append((t[3], False))
            else:
                out.append((t, pol))
    return out


def pc_implies_has(pc, m, k, same_map=None):
    for t, pol in conds(pc):
        if not pol:
            continue
        h = as_has(t)
        if h is not None and h[1] == k and (h[0] == m or (same_map and same_map(h[0], m))):
            return True
    return False


def is_param_root(t, param):
    """t is the parameter itself, possibly after in-place updates / control-flow merges."""
    if not isinstance(t, tuple) or not t:
        return False
    if t == ("param", param):
        return True
    if t[0] == "mut":
        return is_param_root(t[1], param)
    if t[0] == "ite":
        return is_param_root(t[2], param) and is_param_root(t[3], param)
    if t[0] in ("join",):
        return all(is_param_root(x, param) for x in t[1])
    if t[0] == "switch":
        return all(is_param_root(v, param) for _, v in t[2])
    if t[0] in ("loopvar", "mu"):
        return t[2] == param
    return False


def place_is(t, param, field):
    """t denotes the place `<param>.<field>` (the map itself), looking through updates and merges."""
    if not isinstance(t, tuple) or not t:
        return False
    if t[0] == "mut":
        return place_is(t[1], param, field)
    if t[0] == "ite":
        return place_is(t[2], param, field) and place_is(t[3], param, field)
    if t[0] == "join":
        return all(place_is(x, param, field) for x in t[1])
    if t[0] == "switch":
        return all(place_is(v, param, field) for _, v in t[2])
    if t[0] == "field":
        return t[2] == field and is_param_root(t[1], param)
    return False


def value_in(t, param, field):
    """t is a value stored in the map `<param>.<field>` (reached by look-up / payload projection)."""
    seen = 0
    while isinstance(t, tuple) and t and seen < 50:
        seen += 1
        if place_is(t, param, field):
            return True
        if t[0] in ("mut", "proj", "tproj"):
            t = t[1]
        elif t[0] == "call" and t[1] == GET:
            t = t[2][0]
        else:
            return False
    return False
