"""C11 - temporal operators obey their fixed-point laws.

Decided here:
  C11-R1  every evaluator that eval_node dispatches a temporal operator to (and the unused classical variants
          eval_eu / eval_ef) computes the operator's fixed-point characterisation:
            EX p = pre(p) | (p & steady),  AX = not EX not,  EG p = gfp X. p & EX X,  AF = not EG not,
            E[p U q] = lfp X. q | (p & EX X)  (or its saturation form  X | (p & var_pre_v(X)) swept over all v),
            EF p = E[true U p],  AG = not EF not,  A[p U q] = lfp X. q | (p & AX X),
            and the weak untils through their duals:  E[p W q] = not A[not q U (not p & not q)],  A[p W q] = not E[not q U (not p & not q)]
            (shared with C13-R1);
          compared modulo Boolean algebra; an inflationary step F is normalised to F | init, a deflationary to F & init;
  C11-R2  monotonicity: in the normalised equation every argument occurs with the polarity of the operator
          (follows from R1 because the right-hand sides are monotone; checked independently by polarity inference);
  C11-R3  every fixed-point loop runs to stabilisation: classical loops exit only when the iterate equals its
          previous value, the saturation loop only after a full sweep over all network variables without an update.
  C11-R4  the self-loop set handed to the evaluators is compute_steady_states of the evaluated graph in every driver.
  C11-R5  eval_node, partially evaluated for every temporal operator, applies the evaluator to the results of the operands and to the
          steady-state set it received (an evaluator that obeys its law but is handed an empty self-loop set does not; shared with
          C01-R1 / C13-R2).
Not decided: convergence speed, the library's pre-image (L2)."""
import evalnode as E
import polarity
import semantics as sem
import terms

LEVEL = "other"

TEMPORAL = [("UnaryOp", "EX"), ("UnaryOp", "AX"), ("UnaryOp", "EF"), ("UnaryOp", "AF"), ("UnaryOp", "EG"), ("UnaryOp", "AG"),
            ("BinaryOp", "EU"), ("BinaryOp", "AU"), ("BinaryOp", "EW"), ("BinaryOp", "AW")]
EXPECTED_POLARITY = {"Not": "-", "EX": "+", "AX": "+", "EF": "+", "AF": "+", "EG": "+", "AG": "+",
                     "EU": "+", "AU": "+", "EW": "+", "AW": "+", "Imp": None, "Iff": "±", "Xor": "±"}


def run(prog, rep):
    rep.explanation = __doc__
    rep.assumptions = ["L1 Set operations are pure set algebra", "L2 pre/var_pre are monotone and act on state coordinates only"]
    rep.rule("C11-R1", "evaluator == fixed-point characterisation of its operator")
    rep.rule("C11-R2", "polarity of every set argument in the result matches the operator (monotone iteration)")
    rep.rule("C11-R3", "fixed-point loops run to stabilisation")
    en = E.EvalNode(prog)
    if not en.ok():
        rep.unresolved("C11-R1", "eval_node", "", "eval_node not found")
        return
    eng = terms.Engine(prog, inline=True)
    callees = sem.operator_callees(en)
    for kind, op in TEMPORAL:
        fns = callees.get((kind, op), [])
        if not fns:
            rep.unresolved("C11-R1", f"{kind}::{op}", f"{en.fn.file}:{en.fn.line}", "no evaluator function found in the operator's arm of eval_node")
        for f in fns:
            sem.check_evaluator(rep, "C11-R1", prog, kind, op, f, eng)
    # the classical variants kept in the module (not dispatched to, but public within the crate)
    for name, kind, op in (("eval_eu", "BinaryOp", "EU"), ("eval_ef", "UnaryOp", "EF")):
        f = prog.lib_fn(E.OPS + name)
        if f is not None and not any(f in v for v in callees.values()):
            sem.check_evaluator(rep, "C11-R1", prog, kind, op, f, eng)
    rep.floor("C11-R1", 10)
    # polarity
    for (kind, op), fns in sorted(callees.items()):
        if kind not in ("UnaryOp", "BinaryOp") or op not in EXPECTED_POLARITY:
            continue
        for f in fns:
            g, sets = sem.roles(f)
            summ = eng.summary(f)
            operands = sets[:1] if kind == "UnaryOp" else sets[:2]       # the remaining set parameter is the self-loop set
            for i, sp in enumerate(operands):
                pol = polarity.polarity(summ.ret, sp[1])
                want = EXPECTED_POLARITY[op]
                if op == "Imp":
                    want = "-" if i == 0 else "+"
                good = pol == want or (pol == "0" and want in ("+",) and False)
                rep.check(good, "C11-R2", f"{op}->{f.name}/{sp[1]}", f"{f.file}:{f.line}",
                          f"argument `{sp[1]}` has polarity {pol}", f"argument `{sp[1]}` of {f.name} has polarity {pol}, the operator {op} requires {want}")
    rep.floor("C11-R2", 20)
    import pipelines
    rep.rule("C11-R4", "every driver passes compute_steady_states(graph) of the evaluated graph to eval_node (EX/AX treat steady states as self-loops)")
    pipelines.check_steady_pipeline(prog, rep, "C11-R4")
    rep.floor("C11-R4", 20)
    # the laws are stated for the operators as the checker applies them: eval_node hands the evaluators the results of the operands and
    # the pre-computed steady states (an evaluator that is right but called with an empty self-loop set breaks EW = T | (S & EX EW))
    rep.rule("C11-R5", "eval_node applies every temporal operator to its operands' results and the steady states (shared with C01-R1 / C13-R2)")
    for key, shape, alts, kind, op in sem.plain_shapes():
        if (kind.replace("unary", "UnaryOp").replace("binary", "BinaryOp"), op) in TEMPORAL or op in [o for _, o in TEMPORAL]:
            sem.check_shape(rep, "C11-R5", en, shape, alts, key, detail=f"{kind} {op}")
    rep.floor("C11-R5", 10)
    for f in prog.lib_fns():
        if f.path.startswith(E.OPS):
            rep.functions.add(f.qual)
            sem.check_loop_protocol(rep, "C11-R3", prog, f, eng)
    rep.floor("C11-R3", 2)
