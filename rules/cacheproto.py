"""Cache protocol of eval_node (C04-R1..R5, C10-R2, C12-R4, C14): decided on the summary's call sites with their
path conditions, interpreted as Boolean formulae over canonical atoms (truth tables; no execution).

Canonical atoms:
  WC          the node is a wild-card terminal          matches!(node.node_type, Terminal(WildCardProp(_)))
  UNIVERSE    every restricted variable in scope occurs in the key:
              free_var_domains.iter().all(|(v, d)| d.is_none() || renaming.contains_key(v))   (modulo Boolean algebra)
  DUP(K)      duplicates.contains_key(K)      CACHED(K)    cache.contains_key(K)
A store or a hit is *admitted* iff  WC | UNIVERSE  holds (the key describes the universe the value lives in)."""
import evalnode as E
import setalg
import terms
from semantics import short
from terms import pt, subterms, place_path

CTX_CACHE = "cache"
CTX_DUP = "duplicates"
CTX_SCOPE = "free_var_domains"


def last(path):
    return path.rsplit("::", 1)[-1] if isinstance(path, str) else ""


class CondAlg(setalg.Alg):
    """Boolean interpretation of condition terms."""

    def __init__(self, node_param, ctx_param):
        super().__init__()
        self.node = ("param", node_param)
        self.ctx = ("param", ctx_param)

    def is_scope_iter(self, t):
        # eval_context.free_var_domains.iter()  (or `&eval_context.free_var_domains` iterated directly)
        while t[0] == "call" and last(t[1]) in ("iter", "into_iter") and len(t[2]) == 1:
            t = t[2][0]
        return t == ("field", self.ctx, CTX_SCOPE)

    def is_renaming(self, t):
        # get_canonical_and_renaming(node.to_string()).1
        if t[0] != "tproj" or t[2] != 1:
            return False
        c = t[1]
        return c[0] == "call" and last(c[1]) == "get_canonical_and_renaming" and terms.mentions_param(c, self.node[1])

    def body_expr(self, body, elem):
        """Closure body of the universe guard with its atoms abstracted: A = `domain is None`, H = `variable is in the renaming`."""
        def conv(t):
            if t[0] == "bin" and t[1] in ("||", "&&"):
                return ("or" if t[1] == "||" else "and", conv(t[2]), conv(t[3]))
            if t[0] == "not":
                return ("not", conv(t[1]))
            if t[0] == "call" and last(t[1]) == "is_none" and t[2][0] == ("tproj", elem, 1):
                return ("atom", "A")
            if t[0] == "call" and last(t[1]) == "is_some" and t[2][0] == ("tproj", elem, 1):
                return ("not", ("atom", "A"))
            if t[0] == "call" and last(t[1]) == "contains_key" and len(t[2]) == 2 and self.is_renaming(t[2][0]) and t[2][1] == ("tproj", elem, 0):
                return ("atom", "H")
            return ("atom", ("other", self.canon(t)))
        return conv(body)

    def interp(self, t):
        if not isinstance(t, tuple) or not t:
            return ("atom", ("raw", repr(t)))
        k = t[0]
        if k == "lit" and isinstance(t[1], bool):
            return setalg.TRUE if t[1] else setalg.FALSE
        if k == "not":
            return ("not", self.interp(t[1]))
        if k == "bin" and t[1] in ("&&", "||"):
            return ("and" if t[1] == "&&" else "or", self.interp(t[2]), self.interp(t[3]))
        if k == "ite":
            c = self.interp(t[1])
            return ("or", ("and", c, self.interp(t[2])), ("and", ("not", c), self.interp(t[3])))
        if k == "matches":
            return ("atom", self.match_atom(t[1], t[2]))
        if k == "hof" and t[1] == "all":
            recv, body = t[2], t[3]
            if self.is_scope_iter(recv):
                elem = ("elem", recv)
                be = self.body_expr(body, elem)
                if self.equivalent(be, ("or", ("atom", "A"), ("atom", "H"))):
                    return ("atom", ("UNIVERSE",))
                if all(a in ("A", "H") for a in self.atoms_of(be)) and self.implies(be, ("or", ("atom", "A"), ("atom", "H"))):
                    return ("and", ("atom", ("UNIVERSE",)), ("atom", ("stronger", self.sig(be))))
            return ("atom", ("all?", self.canon(recv), self.canon(body)))
        if k == "call" and last(t[1]) == "contains_key" and len(t[2]) == 2:
            m = t[2][0]
            if m == ("field", self.ctx, CTX_DUP) or (m[0] == "field" and m[2] == CTX_DUP and terms.mentions_param(m, self.ctx[1])):
                return ("atom", ("DUP", self.canon(t[2][1])))
            if m[0] == "field" and m[2] == CTX_CACHE and terms.mentions_param(m, self.ctx[1]):
                return ("atom", ("CACHED", self.canon(t[2][1])))
        return ("atom", ("c", self.canon(t)))

    def match_atom(self, scrut, desc):
        if scrut == ("field", self.node, "node_type") and is_wildcard_desc(desc):
            return ("WC",)
        return ("matches", self.canon(scrut), desc)

    def pc_expr(self, pc):
        e = setalg.TRUE
        for c in pc:
            if c[0] == "if":
                x = self.interp(c[1])
                e = ("and", e, x if c[2] else ("not", x))
            elif c[0] == "match":
                a = ("atom", self.match_atom(c[1], c[2]))
                e = ("and", e, a if c[3] else ("not", a))
        return e


def is_wildcard_desc(d):
    try:
        return (d[0] == "var" and d[1].endswith("NodeType::Terminal") and len(d[2]) == 1 and d[2][0][0] == "var"
                and d[2][0][1].endswith("Atomic::WildCardProp"))
    except (IndexError, AttributeError, TypeError):
        return False


ADMIT = ("or", ("atom", ("WC",)), ("atom", ("UNIVERSE",)))


def ctx_sites(en, field):
    """Sites of eval_node whose receiver / first operand is `eval_context.<field>`."""
    out = []
    ctxname = en.params[2]
    for s in en.summ.sites:
        if s.kind in ("mcall", "index", "op"):
            if not s.argnodes or s.argnodes[0] is None:
                continue
            ap = place_path(s.argnodes[0])
        elif s.kind in ("assign", "assignop"):
            ap = s.name
        else:
            continue
        if ap and ap.split(".")[:2] == [ctxname, field]:
            out.append(s)
    return out


def check_store_guard(prog, rep, rule, en):
    """Every cache.insert in eval_node happens only when the key describes the universe (or for a wild-card)."""
    alg = CondAlg(en.params[0], en.params[2])
    stores = [s for s in ctx_sites(en, CTX_CACHE) if s.kind == "mcall" and s.name in ("insert", "entry", "extend", "get_mut", "insert_entry")]
    for s in stores:
        e = alg.pc_expr(s.pc)
        ok = alg.implies(e, ADMIT)
        rep.check(ok, rule, f"eval_node/cache.{s.name}@{s.ordinal}", s.where(),
                  "store is control-dependent on `wild-card | every restricted variable in scope occurs in the key`",
                  "cache store is reachable without the admission guard (wild-card, or all restricted variables of the scope occur in the key): "
                  "a value computed in a restricted universe can be stored under a key that does not name the restriction")
    return stores
