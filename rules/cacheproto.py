"""Cache protocol of eval_node (C04-R1..R5, C10-R2, C12-R4, C14): decided on the summary's sites with their path
conditions, interpreted as Boolean formulae over canonical atoms (truth tables; no execution). All terms are in the
idiom normal form of norm.py, so `contains_key` / `if let Some(..) = map.get(..)` / `get().unwrap()` / `map[k]`,
`all(p)` / `!any(!p)` and helper extraction do not matter.

Canonical atoms:
  WC          the node is a wild-card terminal          matches!(node.node_type, Terminal(WildCardProp(_)))
  UNIVERSE    every restricted variable in scope occurs in the key:
              for all (v, d) in free_var_domains:  d is None  or  renaming has v            (modulo Boolean algebra)
  DUP(K)      duplicates has K        CACHED(K)    cache has K
A store or a hit is *admitted* iff  WC | UNIVERSE  holds (the key describes the universe the value lives in)."""
import evalnode as E
import norm
import q
import setalg
import terms
from norm import SOME_DESC, GET
from semantics import short
from terms import pt, subterms

CTX_CACHE = "cache"
CTX_DUP = "duplicates"
CTX_SCOPE = "free_var_domains"


def last(path):
    return path.rsplit("::", 1)[-1] if isinstance(path, str) else ""


class CondAlg(setalg.Alg):
    """Boolean interpretation of (normalised) condition terms."""

    def __init__(self, node_param, ctx_param):
        super().__init__()
        self.node = ("param", node_param)
        self.ctx_name = ctx_param
        self.ctx = ("param", ctx_param)

    def is_scope_iter(self, t):
        t = terms.strip_iter_adapters(t)
        return q.place_is(t, self.ctx_name, CTX_SCOPE)

    def is_renaming(self, t):
        # get_canonical_and_renaming(node.to_string()).1
        if t[0] != "tproj" or t[2] != 1:
            return False
        c = t[1]
        return c[0] == "call" and last(c[1]) == "get_canonical_and_renaming" and terms.mentions_param(c, self.node[1])

    def body_expr(self, body, elem):
        """Closure body of the universe guard with its atoms abstracted: A = `domain is None`, H = `variable is in the renaming`."""
        def conv(t):
            if t[0] == "bin" and t[1] in ("||", "&&"):
                return ("or" if t[1] == "||" else "and", conv(t[2]), conv(t[3]))
            if t[0] == "not":
                return ("not", conv(t[1]))
            x = q.is_some_test(t)
            if x is not None:
                if x == ("tproj", elem, 1):
                    return ("not", ("atom", "A"))
                g = q.as_get(x)
                if g is not None and self.is_renaming(g[0]) and g[1] == ("tproj", elem, 0):
                    return ("atom", "H")
            return ("atom", ("other", self.canon(t)))
        return conv(body)

    def interp(self, t):
        if not isinstance(t, tuple) or not t:
            return ("atom", ("raw", repr(t)))
        k = t[0]
        if k == "lit" and isinstance(t[1], bool):
            return setalg.TRUE if t[1] else setalg.FALSE
        if k == "not":
            return ("not", self.interp(t[1]))
        if k == "bin" and t[1] in ("&&", "||"):
            return ("and" if t[1] == "&&" else "or", self.interp(t[2]), self.interp(t[3]))
        if k == "ite":
            c = self.interp(t[1])
            return ("or", ("and", c, self.interp(t[2])), ("and", ("not", c), self.interp(t[3])))
        if k == "matches":
            h = q.as_has(t)
            if h is not None:
                m, key = h
                if q.place_is(m, self.ctx_name, CTX_DUP):
                    return ("atom", ("DUP", self.canon(key)))
                if q.place_is(m, self.ctx_name, CTX_CACHE):
                    return ("atom", ("CACHED", self.canon(key)))
            return ("atom", self.match_atom(t[1], t[2]))
        if k == "hof" and t[1] == "all":
            recv, body = t[2], t[3]
            if self.is_scope_iter(recv):
                elem = ("elem", terms.strip_iter_adapters(recv))
                import norm
                be = self.body_expr(norm.Normalizer()(body), elem)
                if self.equivalent(be, ("or", ("atom", "A"), ("atom", "H"))):
                    return ("atom", ("UNIVERSE",))
                if all(a in ("A", "H") for a in self.atoms_of(be)) and self.implies(be, ("or", ("atom", "A"), ("atom", "H"))):
                    return ("and", ("atom", ("UNIVERSE",)), ("atom", ("stronger", self.sig(be))))
            return ("atom", ("all?", self.canon(recv), self.canon(body)))
        if self.is_setlike(t):
            return setalg.Alg.interp(self, t)
        return ("atom", ("c", self.canon(t)))

    def match_atom(self, scrut, desc):
        if scrut == ("field", self.node, "node_type") and is_wildcard_desc(desc):
            return ("WC",)
        return ("matches", self.canon(scrut), desc)

    def pc_expr(self, pc):
        e = setalg.TRUE
        for c in pc:
            if c[0] == "if":
                x = self.interp(c[1])
                e = ("and", e, x if c[2] else ("not", x))
            elif c[0] == "match":
                import norm
                m = norm.Normalizer()(("matches", c[1], c[2]))       # a scrutinee that is itself a decision (helper returning an enum) folds
                a = ("atom", self.match_atom(m[1], m[2])) if m[0] == "matches" else self.interp(m)
                e = ("and", e, a if c[3] else ("not", a))
        return e


def is_wildcard_desc(d):
    try:
        return (d[0] == "var" and d[1].endswith("NodeType::Terminal") and len(d[2]) == 1 and d[2][0][0] == "var"
                and d[2][0][1].endswith("Atomic::WildCardProp"))
    except (IndexError, AttributeError, TypeError):
        return False


ADMIT = ("or", ("atom", ("WC",)), ("atom", ("UNIVERSE",)))

MAP_OPS = ("insert", "remove", "get", "get_mut", "contains_key", "entry", "clear", "retain", "extend", "drain", "remove_entry", "get_or_insert_with",
           "insert_entry", "iter_mut", "values_mut", "index", "index_mut")


def ctx_sites(en, field):
    """Sites of eval_node (helpers inlined) that operate on the map `eval_context.<field>` itself."""
    out = []
    ctxname = en.params[2]
    for s in en.summ.all_sites():
        if s.kind == "mcall" and s.name in MAP_OPS and s.args:
            if q.place_is(s.args[0], ctxname, field):
                out.append(s)
        elif s.kind == "index" and s.args:
            if q.place_is(s.args[0], ctxname, field):
                out.append(s)
        elif s.kind in ("assign", "assignop") and s.args:
            # `*counter -= 1` with counter bound from duplicates.get_mut(..): classified by the value's root place
            old = s.args[0] if s.kind == "assignop" else None
            if old is not None and q.value_in(old, ctxname, field) and q.as_at(old) is not None:
                out.append(s)
    return out


def check_store_guard(prog, rep, rule, en):
    """Every cache.insert in eval_node happens only when the key describes the universe (or for a wild-card)."""
    alg = CondAlg(en.params[0], en.params[2])
    stores = [s for s in ctx_sites(en, CTX_CACHE) if s.kind == "mcall" and s.name in ("insert", "entry", "extend", "get_mut", "insert_entry", "get_or_insert_with")]
    for n, s in enumerate(stores):
        e = alg.pc_expr(s.pc)
        ok = alg.implies(e, ADMIT)
        rep.check(ok, rule, f"eval_node/cache.{s.name}@{n}", s.where(),
                  "store is control-dependent on `wild-card | every restricted variable in scope occurs in the key`",
                  "cache store is reachable without the admission guard (wild-card, or all restricted variables of the scope occur in the key): "
                  "a value computed in a restricted universe can be stored under a key that does not name the restriction")
    return stores


def cache_reads_in(term, ctxname):
    return [x for x in subterms(term) if x[0] == "call" and x[1] == GET and q.place_is(x[2][0], ctxname, CTX_CACHE)]


def check_read_guard(prog, rep, rule, en):
    """Every return of eval_node whose value derives from the cache is admitted, and the hit is intersected with unit(graph)."""
    import bounded as bd
    alg = CondAlg(en.params[0], en.params[2])
    ctxname = en.params[2]
    n = 0
    for (term, pc, may, must, node, kind) in en.summ.returns:
        if kind == "try":
            continue
        if not cache_reads_in(term, ctxname):
            continue
        n += 1
        where = f"{en.fn.file}:{node.get('sp', [0])[0]}"
        e = alg.pc_expr(pc)
        rep.check(alg.implies(e, ADMIT), rule, f"eval_node/cache-hit@{n}", where,
                  "cache hit is control-dependent on `wild-card | every restricted variable in scope occurs in the key`",
                  "a cached value is returned without the admission guard: the key does not name every restriction in force, "
                  "so the value may come from a different universe")
        rep.check(bd.bounded(term, ("param", en.params[1])), rule, f"eval_node/cache-hit-bounded@{n}", where,
                  "cache hit is intersected with the current graph's unit set",
                  f"cached value is returned as {short(term, 160)}, not restricted to the current graph's unit set")
    if n == 0:
        rep.unresolved(rule, "eval_node/cache-hit", f"{en.fn.file}:{en.fn.line}", "no return path reading the cache was found")


# ------------------------------------------------------------------------------------------------
# scope pairing (C04-R1 / C02-R5): may-token analysis
# ------------------------------------------------------------------------------------------------

class ScopeHooks(E.Hooks):
    """`free_var_domains.insert(var, ..)` opens an obligation that `free_var_domains.remove(&var)` closes."""

    def __init__(self, base, ctxname):
        super().__init__(base.prefixes, base.names, base.opaque_names)
        self.ctxname = ctxname

    def on_site(self, ev, site):
        if site.kind != "mcall" or not site.args or site.name not in ("insert", "remove", "clear"):
            return
        if not q.place_is(site.args[0], self.ctxname, CTX_SCOPE):
            return
        if site.name == "insert" and len(site.args) >= 2:
            ev.st.may = ev.st.may | {("scope", site.args[1])}
        elif site.name == "remove" and len(site.args) >= 2:
            ev.st.may = frozenset(t for t in ev.st.may if t != ("scope", site.args[1]))
        elif site.name in ("clear",):
            ev.st.may = frozenset(t for t in ev.st.may if t[0] != "scope")


def pc_false(pc):
    """The path condition contains a literally false entry (the site is on a branch that partial evaluation ruled out)."""
    nz = norm.Normalizer()
    for c in pc:
        if c[0] == "if":
            v = nz(c[1])
            if v[0] == "lit" and isinstance(v[1], bool) and v[1] != bool(c[2]):
                return True
    return False


def check_scope_pairing(prog, rep, rule, en):
    hooks = ScopeHooks(en.hooks, en.params[2])
    eng = terms.Engine(prog, inline=True, hooks=hooks)
    summ = eng.summary(en.fn)
    inserts = [s for s in summ.all_sites() if s.kind == "mcall" and s.name == "insert" and s.args and q.place_is(s.args[0], en.params[2], CTX_SCOPE)]
    if not inserts:
        rep.unresolved(rule, "eval_node/scope-insert", f"{en.fn.file}:{en.fn.line}", "no free_var_domains.insert found")
        return
    # a jump `@{x}:` is no quantifier: it must not touch the scope entry of x (which belongs to the enclosing quantifier of x)
    try:
        sp = eng.specialise(en.fn, {en.params[0]: E.node_term(E.shape_hybrid("Jump", ("lit", "x"), None, ("param", "#c")))})
    except Exception:
        sp = None
    if sp is None:
        rep.unresolved(rule, "eval_node/scope:jump", f"{en.fn.file}:{en.fn.line}", "eval_node could not be evaluated for a jump node")
    else:
        touched = [x for x in sp.all_sites() if x.kind == "mcall" and x.name in ("insert", "remove", "clear", "retain", "extend", "entry", "get_mut")
                   and x.args and q.place_is(x.args[0], en.params[2], CTX_SCOPE) and not pc_false(x.pc)]
        rep.check(not touched, rule, "eval_node/scope:jump", touched[0].where() if touched else f"{en.fn.file}:{en.fn.line}",
                  "evaluating a jump leaves free_var_domains alone",
                  f"for a jump node eval_node performs free_var_domains.{touched[0].name if touched else ''}(..): the entry of the variable belongs to its enclosing "
                  "quantifier; overwriting / removing it changes the cache keys (and the restriction they name) for the rest of that quantifier's scope")
    for idx, (term, pc, may, must, node, kind) in enumerate(summ.returns):
        open_ = [t for t in may if t[0] == "scope"]
        where = f"{en.fn.file}:{node.get('sp', [0])[0]}"
        what = "`?`" if kind == "try" else ("end of function" if kind == "tail" else "`return`")
        rep.check(not open_, rule, f"eval_node/exit:{kind}@{idx}", where,
                  "no scope entry is left in free_var_domains at this exit",
                  f"{what} at line {node.get('sp', [0])[0]} is reachable after free_var_domains.insert({short(open_[0][1], 60) if open_ else ''}, ..) "
                  f"without the matching remove: the stale entry changes the cache keys of everything evaluated afterwards")


# ------------------------------------------------------------------------------------------------
# eviction, counter, key agreement, renaming discipline
# ------------------------------------------------------------------------------------------------

def key_of(site):
    """Key argument of a map operation on the cache / duplicates."""
    if site.kind == "mcall" and len(site.args) >= 2:
        return site.args[1]
    if site.kind == "index" and len(site.args) >= 2:
        return site.args[1]
    if site.kind == "assignop" and site.args:
        at = q.as_at(site.args[0])
        return at[1] if at else None
    return None


def check_eviction_and_counter(prog, rep, rule, en):
    alg = CondAlg(en.params[0], en.params[2])
    cache = ctx_sites(en, CTX_CACHE)
    dups = ctx_sites(en, CTX_DUP)
    allowed = {"contains_key", "get", "insert", "remove", "index"}
    for n, s in enumerate(cache):
        if s.kind == "mcall" and s.name not in allowed:
            rep.violation(rule, f"eval_node/cache.{s.name}@{n}", s.where(),
                          f"unexpected operation `{s.name}` on the cache: only look-up, store of a fresh result and eviction are part of the protocol "
                          "(writing back into an entry changes what later hits see)")
    # stores: the stored value is a value this call also returns (never data read from the cache)
    rets = [r[0] for r in en.summ.returns if r[5] != "try"]
    for n, s in enumerate([x for x in cache if x.kind == "mcall" and x.name == "insert"]):
        v = s.args[2] if len(s.args) > 2 else None
        val = v[1][0] if v and v[0] == "tuple" and v[1] else v
        reads_cache = val is not None and bool(cache_reads_in(val, en.params[2]))
        fresh = val is not None and any(val == r or any(val == y for y in subterms(r) if r[0] in ("join", "ite")) for r in rets)
        rep.check(fresh and not reads_cache, rule, f"eval_node/store-value@{n}", s.where(),
                  "stored value is the freshly computed result that is also returned",
                  f"value stored in the cache ({short(val, 140)}) is not the result this call returns" +
                  (" and derives from a cached entry (write-back)" if reads_cache else ""))
    # evictions
    rem_n = 0
    for s in [x for x in cache + dups if x.kind == "mcall" and x.name == "remove"]:
        e = alg.pc_expr(s.pc)
        not_wc = alg.implies(e, ("not", ("atom", ("WC",))))
        zero = False
        for t, pol in q.conds(s.pc):
            if pol and t[0] == "bin" and t[1] == "==" and ("lit", 0) in (t[2], t[3]):
                other = t[3] if t[2] == ("lit", 0) else t[2]
                if q.value_in(other, en.params[2], CTX_DUP) or "duplicates" in pt(other):
                    zero = True
        what = "cache" if s in cache else "duplicates"
        rep.check(not_wc and zero, rule, f"eval_node/{what}.remove@{rem_n}", s.where(),
                  "eviction only for non-wild-card entries whose counter reached zero",
                  ("wild-card entries can be evicted although they cannot be recomputed (the wild-card arm is unreachable!()); " if not not_wc else "") +
                  ("eviction is not conditioned on the duplicate counter being zero" if not zero else ""))
        rem_n += 1
    # exactly one decrement, on the hit path
    decs = [s for s in dups if s.kind == "assignop"]
    good = len(decs) == 1 and decs[0].args[1] == ("lit", 1) and (decs[0].term or ("", "", ""))[1] == "-"
    if good:
        e = alg.pc_expr(decs[0].pc)
        good = any(a[0] == "CACHED" for a in alg.atoms_of(e)) and alg.implies(e, ADMIT) and \
            alg.implies(e, ("atom", [a for a in alg.atoms_of(e) if a[0] == "CACHED"][0]))
    rep.check(good, rule, "eval_node/counter", decs[0].where() if decs else f"{en.fn.file}:{en.fn.line}",
              "duplicate counter decremented exactly once per admitted cache hit",
              f"{len(decs)} decrement sites / not on the admitted hit path")
    # all operations use one key
    keys = []
    for s in cache + dups:
        k = key_of(s)
        if k is not None:
            keys.append((s, alg.canon(k)))
    distinct = {k for _, k in keys}
    rep.check(len(distinct) == 1 and len(keys) >= 5, rule, "eval_node/one-key", f"{en.fn.file}:{en.fn.line}",
              f"all {len(keys)} cache / duplicates operations use the same key",
              f"{len(distinct)} different keys are used across {len(keys)} cache / duplicates operations")
    return key_of(keys[0][0]) if keys else None


def check_key_recipe(prog, rep, rule, en, reader_key):
    """Reader (eval_node) and writer (mark_duplicates_canonized_multiple) build the key by the same recipe."""
    md = prog.lib_fn("evaluation::mark_duplicates::mark_duplicates_canonized_multiple")
    if md is None or reader_key is None:
        rep.unresolved(rule, "key-recipe", "", "writer function or reader key not found")
        return
    rep.functions.add(md.qual)
    eng = terms.Engine(prog, inline=True, hooks=E.eval_hooks())
    s = eng.summary(md)
    wkeys = []
    for st in s.all_sites():
        if st.kind == "mcall" and st.name in ("insert", "contains_key", "get", "get_mut", "entry") and st.args and len(st.args) >= 2:
            recv = q.strip_mut(st.args[0])
            # the counter map, recognised by its type: HashMap<(formula text, domain map), i32> - a local, a field, a parameter
            ty_ = str((st.argnodes[0] or {}).get("ty", "")).replace("&mut ", "").replace("&", "").strip() if st.argnodes else ""
            is_dup = ty_.startswith("std::collections::HashMap<(std::string::String, std::collections::BTreeMap<") and ty_.endswith(", i32>")
            import re
            if not is_dup and re.fullmatch(r"std::collections::HashMap<[A-Z]\w*, i32>", ty_):
                is_dup = True               # the same map seen inside a generic counting helper (`HashMap<K, i32>`) inlined into the writer
            if is_dup:
                wkeys.append(st)
    if not wkeys:
        rep.unresolved(rule, "key-recipe", f"{md.file}:{md.line}", "no operation on the duplicates map in the writer")
        return
    alg = setalg.Alg()
    node = ("param", en.params[0])
    scope = ("field", ("param", en.params[2]), CTX_SCOPE)
    seen = set()
    for st in wkeys:
        wk = st.args[1]
        if wk in seen:
            continue
        seen.add(wk)
        cands = [x for x in subterms(wk) if x[0] == "field" and x[2] == "subtree"]
        doms = [x for x in subterms(wk) if x[0] == "field" and x[2] == "domains"]
        t = wk
        for c in cands[:1]:
            t = terms.replace(t, c, node)
        for d in doms[:1]:
            t = terms.replace(t, d, scope)
        same = alg.canon(strip_loop_ids(t)) == alg.canon(strip_loop_ids(reader_key))
        rep.check(same, rule, f"writer/key@{len(seen)}", st.where(),
                  "writer's key recipe equals the reader's (canonical text, canonical domains of the variables that occur)",
                  f"writer builds {short(t, 200)}; reader builds {short(reader_key, 200)}")
    # duplicates are only recorded for at most one variable (sequential renaming on a hit is only correct then)
    writes = [x for x in wkeys if x.name in ("insert", "entry", "get_mut")] + \
             [x for x in s.all_sites() if x.kind == "assignop" and ("duplicates" in pt(x.args[0]) or any(q.as_at(x.args[0]) is not None and
                                                                                                        q.as_at(x.args[0])[0] == q.strip_mut(w.args[0]) for w in wkeys))]
    n = 0
    for st in writes:
        guard = False
        for t, pol in q.conds(st.pc):
            arg = terms.strip_iter_adapters(t[2][2][0]) if t[0] == "bin" and t[2][0] == "call" and last(t[2][1]) in ("len", "#len") and len(t[2][2]) == 1 else None
            while arg is not None and arg[0] == "call" and isinstance(arg[1], str) and last(arg[1]) in ("clone", "keys", "values", "iter") and len(arg[2]) == 1:
                arg = arg[2][0]
            # the counted collection is the renaming itself (all variables of the sub-formula), not something derived from it
            is_ren = arg is not None and arg[0] == "tproj" and arg[2] == 1 and arg[1][0] == "call" and last(arg[1][1]) == "get_canonical_and_renaming"
            if is_ren and t[3][0] == "lit":
                v = t[3][1]
                if pol and ((t[1] == "<=" and v <= 1) or (t[1] == "<" and v <= 2) or (t[1] == "==" and v <= 1)):
                    guard = True
                if not pol and ((t[1] == ">" and v <= 1) or (t[1] == ">=" and v <= 2)):
                    guard = True
        rep.check(guard, rule, f"writer/len-guard@{n}", st.where(), "duplicate recorded only when the renaming has at most one variable",
                  "a duplicate is recorded without `renaming.len() <= 1`: hits would rename several variables sequentially")
        n += 1


def strip_loop_ids(t):
    """Loop ids are positions in the function body: irrelevant for comparing two recipes."""
    if not isinstance(t, tuple) or not t:
        return t
    if t[0] == "mu":
        return ("mu", 0, "v", strip_loop_ids(t[3]), strip_loop_ids(t[4]))
    if t[0] == "loopvar":
        return ("loopvar", 0, "v")
    return tuple(strip_loop_ids(x) if isinstance(x, tuple) else x for x in t)


def check_renaming_on_hit(prog, rep, rule, en):
    alg = CondAlg(en.params[0], en.params[2])
    subs = [s for s in en.summ.all_sites() if s.kind == "call" and s.is_call_to("substitute_hctl_var")]
    if not subs:
        rep.unresolved(rule, "eval_node/substitute", f"{en.fn.file}:{en.fn.line}", "no substitute_hctl_var call on the hit path")
        return
    for n, s in enumerate(subs):
        a = s.args
        problems = []
        if a[0] != ("param", en.params[1]):
            problems.append("renaming is not done on the current graph")
        frm, to = a[2], a[3]
        # `from` = name stored with the cached value, `to` = current name of the same canonical variable
        if not (frm[0] == "tproj" and frm[2] == 0 and cache_reads_in(frm, en.params[2])):
            problems.append(f"`from` variable ({short(frm, 80)}) is not the original name stored with the cached value")
        ok_to = False
        for gcall in [x for x in subterms(to) if x[0] == "call" and x[1] == GET]:
            m, k = gcall[2]
            inserts = [y for y in subterms(m) if y[0] == "call" and last(y[1]) == "insert" and len(y[2]) == 2]
            inv = any(y[2][0][0] == "tproj" and y[2][0][2] == 1 and y[2][1][0] == "tproj" and y[2][1][2] == 0 and
                      any(alg.is_renaming(z) for z in subterms(y[2][0])) for y in inserts)
            for y in [m] + list(subterms(m)):
                if y[0] == "collectmap" and y[2] == ("lit", True) and alg.is_renaming(terms.strip_iter_adapters(y[1])) \
                        and y[3] == ("tproj", ("elem", y[1]), 1) and y[4] == ("tproj", ("elem", y[1]), 0):
                    inv = True          # { canonical -> current | (current, canonical) in renaming }
            if inv and k[0] == "tproj" and k[2] == 1 and cache_reads_in(k, en.params[2]):
                ok_to = True
        if not ok_to:
            problems.append(f"`to` variable ({short(to, 100)}) is not looked up in the inverse of the current renaming by the stored canonical name")
        rep.check(not problems, rule, f"eval_node/substitute@{n}", s.where(),
                  "cached set renamed from the stored variable name to the current name of the same canonical variable", "; ".join(problems))
