"""Private worker functions are found by the call structure, not by their names: the recursive function behind a public entry point
is the function reachable from it (through non-recursive helpers of the crate) that calls itself."""
import terms

_WORKERS = {}


def worker_of(prog, public_path, depth=3):
    key = (id(prog), public_path)
    if key in _WORKERS:
        return _WORKERS[key]
    out = None
    entry = prog.lib_fn(public_path)
    if entry is not None:
        api = getattr(prog, "_api_forms", None) or terms.ApiForms(prog)
        prog._api_forms = api
        seen, frontier = set(), [entry]
        for _ in range(depth):
            nxt = []
            for f in frontier:
                for g in api.callees(f):
                    if g.qual in seen or g.crate != entry.crate:
                        continue
                    seen.add(g.qual)
                    if g in api.callees(g):
                        out = out or g
                    else:
                        nxt.append(g)
            if out is not None:
                break
            frontier = nxt
        if out is None and entry in api.callees(entry):
            out = entry
    _WORKERS[key] = out
    return out


def tokenizer_main(prog):
    """The tokenizer's main (recursive: parenthesised groups) function behind the public try_tokenize_formula."""
    return worker_of(prog, "preprocessing::tokenizer::try_tokenize_formula")


def tokenizer_main_path(prog):
    f = tokenizer_main(prog)
    return f.path if f is not None else "preprocessing::tokenizer::try_tokenize_recursive"
